"""C08 — smoothed estimates reproduce the data and are a simulation of the model.

Enumeration: the C03 model set (+ thorough extras) x span length N in 2..4 x ALL missing-data
masks x deviation x data vector.  Oracle: the observed data themselves, the harness's own
copy of the equations (ref/linre residual operator), a re-simulation through the real
first-order simulator, and the level/deviation differential.
"""
import contextlib
import io

import numpy as np
import irispie as ir

from mc import engine
from ref import gauss
from ref import linre
from props import c03

PROPERTY = "C08"
LEVEL = "exploration"
RULE = ("models x N in 2..4 (thorough 2..6, 2..8 with one observable) x every missing-data mask of the n_y x N panel x deviation x data vector; distinct non-trivial = "
        "(model, N, mask, deviation, data) with at least one observed cell")
MANIFEST_ENTRY = dict(level="exploration", design="DESIGN.md section 4 / C08",
    technique="bounded-exhaustive enumeration of all missing-data masks on generated state-space models; data reproduction, residual substitution into the harness's own equations, re-simulation and level/deviation differential oracles",
    text="For the 13 (quick) / 18 (thorough) solved models of C03 and 4 unit-root models (trend-cycle, and a unit root whose drift comes through a stable variable: non-flat steady state) under the default diffuse initialisation (incl. log observables, lagged state in the measurement equation, no-measurement-shock and forward-looking models), every N in 2..4 (thorough: 2..8 with one observable, 2..6 with two) and EVERY missing-data mask: smoothed and updated medians equal the data in every observed cell; every measurement equation holds in every observed cell with smoothed states and smoothed measurement shocks; every transition equation of a backward-looking model holds exactly with the smoothed shocks; simulating the model (real first-order simulator) from the smoothed initial condition with the smoothed shocks reproduces the smoothed variables; the filter in deviation mode on data minus (over, for log-variables) the harness's own steady state equals level-mode results minus steady state (stationary models: the harness's own steady state; unit-root models: the model's own steady path, masks that do not identify the unit-root level counted, not judged); with shock means supplied as data (an unanticipated mean and an anticipated shock known from the start) the data are reproduced and the re-simulation holds with the given anticipated shocks.",
    note="Trusted: ref/linre.py equations and steady state; first-order simulator (C01). prepend_initial is not used (it crashes on this code base - adjacent defect outside the statement), so equations needing pre-sample smoothed states are checked from the first period where all lags are inside the span.")
ASSUMPTIONS = ["the first-order simulator is correct (C01)"]

START = c03.START


def series_of(box, name, N, lo=0):
    if name not in box:
        return np.full(N - lo, np.nan)
    return box[name].get_data_from_until((START + lo, START + N - 1))[:, 0].astype(float)


def check_config(spec, m, N, dev, res, ctx, only_mask=None):
    name = spec.name
    ny = len(spec.meas)
    is_log = spec.log
    L = spec.max_lag()
    ss_vec = spec.steady()
    unit_root = ss_vec is None          # the steady level is not pinned down: data are generated around zero
    if unit_root:
        ss_vec = np.zeros(spec.n)
    ss = {spec.var(j): ss_vec[j] for j in range(spec.n)}
    for k, e in enumerate(spec.meas):
        ss[spec.obs(k)] = sum(c * ss_vec[j] for (j, s, c) in e["terms"]) + e.get("const", 0.0)
    backward = spec.max_lead() == 0
    setting = c03.std_settings(spec, N, ctx.seed)[0]
    joint = []

    def level_identified(mask):
        """unit-root models: do the observed cells identify the fixed unknown initial condition?  (structural: the
        conditioning of the GLS normal matrix of the stacked oracle of C03 depends on the mask only)"""
        if not joint:
            sol = m.get_solution()
            vec = m.solution_vectors
            q2n = m.create_qid_to_name()
            ynames = [q2n[t.qid] for t in vec.measurement_variables]
            nu, nw = len(vec.transition_shocks), len(vec.measurement_shocks)
            H = sol.H if nw else np.zeros((len(ynames), 0))
            joint.append(gauss.JointFixedUnknown(sol.Ta, sol.Pa, sol.Ka, sol.Ua, sol.Za, H, sol.D, int(sol.num_unit_roots),
                                                 [1.0] * nu, [[1.0] * nu] * N, [[1.0] * nw] * N, deviation=False))
            joint.append([ynames.index(spec.obs(i)) for i in range(ny)])
        J, yperm = joint
        cells = [(t, yperm[i]) for t in range(N) for i in range(ny) if mask[i, t]]
        return J.estimate_delta(cells, {c: 0.0 for c in cells}) <= 1e8

    for mask in (c03.all_masks(ny, N) if only_mask is None else [np.array(only_mask, dtype=bool)]):
        if not mask.any():
            res.exclude("no_observation_at_all")
            continue
        pat = c03.data_patterns(ny, N, ctx.seed)[0] * (0.1 if is_log else 1.0)
        # data in "oracle space" (logs for log models): steady state + pattern
        ydev = pat
        ylev = np.array([[ss[spec.obs(i)] + pat[i, t] for t in range(N)] for i in range(ny)])
        case = {"spec": spec.to_json(), "N": N, "deviation": dev, "mask": mask.astype(int).tolist()}
        sig0 = {"deviation": dev, "log": is_log, "ny": ny, "backward": backward}

        def bad(check, detail, **extra):
            sig = dict(sig0)
            sig.update(extra)
            res.violation(check, sig, case, "%s N=%d dev=%s mask=%s: %s" % (name, N, dev, mask.astype(int).tolist(), detail))
        to_impl = (lambda a: np.exp(a)) if is_log else (lambda a: a)
        from_impl = (lambda a: np.log(a)) if is_log else (lambda a: a)
        res.ev()
        try:
            f = c03.Filtered(spec, m, to_impl(ydev if dev else ylev), mask, N, dev, False, None)
        except Exception as e:
            bad("exception", "%s: %s" % (type(e).__name__, str(e)[:300]), error=type(e).__name__)
            continue
        res.nt((name, N, dev, mask.tobytes()))
        data = ydev if dev else ylev
        sm, up = f.out["smooth_med"], f.out["update_med"]
        # the smoother asked for alone (no prediction and no updating output) returns the same smoothed means
        try:
            fs = c03.Filtered(spec, m, to_impl(ydev if dev else ylev), mask, N, dev, False, None, return_predict=False, return_update=False)
            res.ev()
            res.count("smoother_alone_runs")
            for n_ in sm.keys():
                a_ = series_of(sm, n_, N)
                b_ = series_of(fs.out["smooth_med"], n_, N)
                if not np.allclose(a_, b_, rtol=1e-9, atol=1e-10, equal_nan=True):
                    bad("smoother_alone", "smooth_med %s: requested alone %s, with all outputs %s" % (n_, np.round(b_, 9).tolist(), np.round(a_, 9).tolist()), what="smooth_med")
                    break
        except Exception as e:
            bad("exception", "smoother alone: %s: %s" % (type(e).__name__, str(e)[:300]), error=type(e).__name__)
        # (a), (e): data reproduced in observed cells
        for i in range(ny):
            for box, lab in ((sm, "smooth_med"), (up, "update_med")):
                got = from_impl(series_of(box, spec.obs(i), N))
                for t in range(N):
                    if mask[i, t] and not np.isclose(got[t], data[i, t], rtol=1e-9, atol=1e-9):
                        bad("data_not_reproduced", "%s %s[%d] = %.12g, data %.12g" % (lab, spec.obs(i), t, got[t], data[i, t]), what=lab)
        # arrays of smoothed quantities (oracle space)
        arr = {}
        for j in range(spec.n):
            arr[spec.var(j)] = from_impl(series_of(sm, spec.var(j), N))
            arr[spec.shk(j)] = series_of(sm, spec.shk(j), N)
            arr["ant_" + spec.shk(j)] = np.zeros(N)
        for k, e in enumerate(spec.meas):
            arr[spec.obs(k)] = from_impl(series_of(sm, spec.obs(k), N))
            if e.get("shock"):
                arr[spec.mshk(k)] = series_of(sm, spec.mshk(k), N)
        if any(not np.all(np.isfinite(arr[spec.var(j)])) for j in range(spec.n)):
            bad("smooth_not_reported", "smoothed transition variables contain missing values")
            continue

        def get(n, t):
            return arr[n][t] if 0 <= t < N else np.nan
        # (b) measurement equations in observed cells, (c) backward-looking transition equations
        for t in range(N):
            r = spec.residuals(get, t, deviation=dev)
            for i in range(spec.n):
                lag_i = max([0] + [-s for (_, s, _) in spec.eqs[i]["terms"]])
                if backward and t - lag_i >= 0 and not (abs(r[i]) <= 1e-9):
                    bad("transition_equation", "equation %d at t=%d: residual %.3e with smoothed variables and shocks" % (i, t, r[i]), what="transition")
            for k, e in enumerate(spec.meas):
                lag_k = max([0] + [-s for (_, s, _) in e["terms"]])
                if mask[k, t] and t - lag_k >= 0 and not (abs(r[spec.n + k]) <= 1e-9):
                    bad("measurement_equation", "measurement equation %d at t=%d: residual %.3e" % (k, t, r[spec.n + k]), what="measurement")
        # (d) re-simulation from the smoothed initial condition with the smoothed shocks
        t0 = max(L, 1)
        if N - t0 >= 1:
            res.ev()
            try:
                span = (START + t0) >> (START + N - 1)
                db = ir.Databox.steady(m, span, deviation=dev)
                for j in range(spec.n):
                    v = series_of(sm, spec.var(j), N)
                    for t in range(t0):
                        db[spec.var(j)][START + t] = v[t]
                    e_ = series_of(sm, spec.shk(j), N)
                    for t in range(t0, N):
                        db[spec.shk(j)][START + t] = e_[t]
                for k, e in enumerate(spec.meas):
                    if e.get("shock"):
                        w_ = series_of(sm, spec.mshk(k), N)
                        for t in range(t0, N):
                            db[spec.mshk(k)][START + t] = w_[t]
                with contextlib.redirect_stdout(io.StringIO()):
                    out = m.simulate(db, span, method="first_order", deviation=dev)
                for j in range(spec.n):
                    a = series_of(out, spec.var(j), N, lo=t0)
                    b = series_of(sm, spec.var(j), N, lo=t0)
                    if not np.allclose(a, b, rtol=1e-8, atol=1e-9):
                        bad("resimulation", "%s: simulated %s, smoothed %s" % (spec.var(j), np.round(a, 9).tolist(), np.round(b, 9).tolist()), what="transition")
                for k in range(ny):
                    a = series_of(out, spec.obs(k), N, lo=t0)
                    b = series_of(sm, spec.obs(k), N, lo=t0)
                    ok = mask[k, t0:]
                    if ok.any() and not np.allclose(a[ok], b[ok], rtol=1e-8, atol=1e-9):
                        bad("resimulation", "%s: simulated %s, smoothed %s" % (spec.obs(k), np.round(a, 9).tolist(), np.round(b, 9).tolist()), what="measurement")
            except Exception as e:
                bad("exception", "re-simulation: %s: %s" % (type(e).__name__, str(e)[:300]), error=type(e).__name__)
        # (f) deviation mode on data minus steady state == level results minus steady state
        if not dev and not (unit_root and is_log):
            res.ev()
            try:
                if unit_root and not level_identified(mask):
                    # the observed cells say nothing about some unit-root level: its estimate is arbitrary in either mode
                    res.count("deviation_vs_level_unit_root_level_not_identified")
                    continue
                if unit_root:
                    # the steady level of a unit-root model is not pinned down by the equations: "steady state" is the
                    # model's own steady path (whatever level it picked, plus its steady growth), a solution of the model
                    path_db = ir.Databox.steady(m, START >> (START + N - 1), deviation=False)
                    path = {n_: series_of(path_db, n_, N) for n_ in [spec.var(j) for j in range(spec.n)] + [spec.obs(k) for k in range(ny)]}
                    ydev_f = np.array([ylev[i] - path[spec.obs(i)] for i in range(ny)])
                    res.count("deviation_vs_level_unit_root")
                else:
                    path = {n_: np.full(N, ss[n_]) for n_ in ss}
                    ydev_f = ydev
                fd = c03.Filtered(spec, m, to_impl(ydev_f), mask, N, True, False, None)
                for key in ("smooth_med", "update_med", "predict_med"):
                    for n_ in [spec.var(j) for j in range(spec.n)] + [spec.obs(k) for k in range(ny)] + [spec.shk(j) for j in range(spec.n)]:
                        logged = is_log and n_[0] in "vo"
                        a = series_of(f.out[key], n_, N)
                        b = series_of(fd.out[key], n_, N)
                        a = np.log(a) if logged else a
                        b = np.log(b) if logged else b
                        exp = a - (path[n_] if n_[0] in "vo" else 0.0)
                        both = np.isfinite(exp) | np.isfinite(b)
                        if not np.allclose(exp[both], b[both], rtol=1e-8, atol=1e-9, equal_nan=False):
                            bad("deviation_vs_level", "%s %s: level - steady %s, deviation run %s" % (key, n_, np.round(exp, 9).tolist(), np.round(b, 9).tolist()), what=key)
            except Exception as e:
                bad("exception", "deviation run: %s: %s" % (type(e).__name__, str(e)[:300]), error=type(e).__name__)
    res.sample({"model": name, "N": N, "deviation": dev, "masks": 2 ** (ny * N) - 1})


def check_shocks_from_data(spec, m, N, dev, res, ctx):
    """shock means supplied as data (shocks_from_data=True): an unanticipated mean and an anticipated shock known from the
    start; the smoothed estimates must reproduce the data and be a simulation of the model under the smoothed
    unanticipated shocks together with the given anticipated ones"""
    if N < 3:
        return
    ny = len(spec.meas)
    is_log = spec.log
    amp = 0.1 if is_log else 1.0
    ss_vec = spec.steady()
    if ss_vec is None:
        ss_vec = np.zeros(spec.n)
    ss = {spec.obs(k): sum(c * ss_vec[j] for (j, s_, c) in e["terms"]) + e.get("const", 0.0) for k, e in enumerate(spec.meas)}
    pat = c03.data_patterns(ny, N, ctx.seed)[1] * (0.1 if is_log else 1.0)
    masks = list(c03.all_masks(ny, N))
    extra = {"ant_" + spec.shk(spec.n - 1): [0.0, 0.0, 0.8 * amp] + [0.0] * (N - 3), spec.shk(0): [0.0, 0.3 * amp] + [0.0] * (N - 2)}
    L = spec.max_lag()
    for mask in (masks[-1], masks[len(masks) // 2 + 1] if len(masks) > 2 else masks[-1]):
        if not mask.any():
            continue
        lev = np.array([[(0.0 if dev else ss[spec.obs(i)]) + pat[i, t] for t in range(N)] for i in range(ny)])
        data = lev
        impl = np.exp(lev) if is_log else lev
        case = {"spec": spec.to_json(), "N": N, "deviation": dev, "mask": mask.astype(int).tolist(), "shocks_from_data": True}

        def bad(check, detail, **kw_):
            sig = {"deviation": dev, "log": is_log, "ny": ny, "backward": spec.max_lead() == 0, "what": "shocks_from_data"}
            sig.update(kw_)
            res.violation(check, sig, case, "%s N=%d dev=%s mask=%s shocks_from_data: %s" % (spec.name, N, dev, mask.astype(int).tolist(), detail))
        res.ev()
        try:
            f = c03.Filtered(spec, m, impl, mask, N, dev, False, None, extra=extra, shocks_from_data=True)
        except Exception as e:
            bad("exception", "%s: %s" % (type(e).__name__, str(e)[:300]), error=type(e).__name__)
            continue
        res.nt((spec.name, N, dev, mask.tobytes(), "shocks_from_data"))
        res.count("shocks_from_data_runs")
        sm = f.out["smooth_med"]
        fr = (lambda a: np.log(a)) if is_log else (lambda a: a)
        for i in range(ny):
            got = fr(series_of(sm, spec.obs(i), N))
            for t in range(N):
                if mask[i, t] and not np.isclose(got[t], data[i, t], rtol=1e-9, atol=1e-9):
                    bad("data_not_reproduced", "smooth_med %s[%d] = %.12g, data %.12g" % (spec.obs(i), t, got[t], data[i, t]))
        for j in range(spec.n):
            a_in = np.array(extra.get("ant_" + spec.shk(j), [0.0] * N))
            a_out = np.nan_to_num(series_of(sm, "ant_" + spec.shk(j), N))
            if not np.allclose(a_in, a_out, atol=1e-12):
                bad("anticipated_input_changed", "ant_%s returned %s, input %s" % (spec.shk(j), a_out.tolist(), a_in.tolist()))
        t0 = max(L, 1)
        try:
            span = (START + t0) >> (START + N - 1)
            db = ir.Databox.steady(m, span, deviation=dev)
            for j in range(spec.n):
                v = series_of(sm, spec.var(j), N)
                for t in range(t0):
                    db[spec.var(j)][START + t] = v[t]
                e_ = series_of(sm, spec.shk(j), N)
                a_ = np.array(extra.get("ant_" + spec.shk(j), [0.0] * N))
                for t in range(t0, N):
                    db[spec.shk(j)][START + t] = e_[t]
                    db["ant_" + spec.shk(j)][START + t] = a_[t]
            with contextlib.redirect_stdout(io.StringIO()):
                out = m.simulate(db, span, method="first_order", deviation=dev)
            res.ev()
            for j in range(spec.n):
                a = series_of(out, spec.var(j), N, lo=t0)
                b = series_of(sm, spec.var(j), N, lo=t0)
                if not np.allclose(a, b, rtol=1e-8, atol=1e-9):
                    bad("resimulation", "%s: simulated %s, smoothed %s" % (spec.var(j), np.round(a, 9).tolist(), np.round(b, 9).tolist()))
        except Exception as e:
            bad("exception", "re-simulation: %s: %s" % (type(e).__name__, str(e)[:300]), error=type(e).__name__)


def all_models(tier):
    return c03.models(tier) + c03.unit_root_models(tier)


def check_after_reparameterisation(spec, N, res, ctx):
    """a HISTORY on one model object: solved and filtered (in deviation and in level mode) under one parameterisation,
    then given other coefficients, steady() and solve() again - everything the filter returns afterwards belongs to
    the new parameterisation (judged by the full set of oracles on the all-observed mask and on one mask with gaps)"""
    spec_b = c03.scaled(spec, 0.9)
    if spec_b.classify()["kind"] != "determinate" or spec_b.classify().get("num_unit", 0) != spec.classify().get("num_unit", 0):
        res.exclude("reparameterisation_not_determinate")
        return
    ny = len(spec.meas)
    with contextlib.redirect_stdout(io.StringIO()):
        m = c03.build(spec)
        m.assign(**c03.std_settings(spec, N, ctx.seed)[0][1])
        full = np.ones((ny, N), dtype=bool)
        ss0 = spec.steady()
        for dev in (True, False):
            lev = np.zeros((ny, N)) + (0.0 if dev or ss0 is None else 1.0)
            try:
                c03.Filtered(spec, m, np.exp(lev * 0.1) if spec.log else lev, full, N, dev, False, None)
            except Exception:
                pass
        m.assign(**spec_b.param_values())
        m.steady()
        m.solve()
    res.count("reparameterised_objects_checked")
    masks = [full]
    gap = full.copy()
    gap[0, N // 2] = False
    masks.append(gap)
    for mask in masks:
        check_config(spec_b, m, N, False, res, ctx, only_mask=mask)
        check_config(spec_b, m, N, True, res, ctx, only_mask=mask)


def shard(item, res, ctx):
    spec = linre.LinSpec.from_json(item["spec"])
    m = c03.build(spec)
    m.assign(**c03.std_settings(spec, item["N"], ctx.seed)[0][1])
    check_config(spec, m, item["N"], item["dev"], res, ctx)
    check_shocks_from_data(spec, m, item["N"], item["dev"], res, ctx)
    if item["N"] == 3 and not item["dev"]:
        check_after_reparameterisation(spec, 3, res, ctx)
    if item["N"] == 3:
        # two parameter variants filtered together: every variant returns what its own single-variant model returns
        # (the differential of C03, which covers the smoothed transition variables and shocks)
        setting = c03.std_settings(spec, 3, ctx.seed)[0]
        n0 = res.counters.get("variant_runs", 0)
        c03.check_variants(spec, m, 3, setting, item["dev"], res, ctx)
        res.count("two_variant_filter_runs", res.counters.get("variant_runs", 0) - n0)


def run(ctx, total, info):
    shards = []
    for spec in all_models(ctx.tier):
        ny = len(spec.meas)
        maxN = 4 if ctx.quick else (8 if ny == 1 else 6)
        for N in range(2, maxN + 1):
            for dev in (False, True):
                shards.append({"spec": spec.to_json(), "N": N, "dev": dev, "w": 2 ** (ny * N)})
    shards.sort(key=lambda s: -s["w"])
    engine.run_shards(__name__, "shard", shards, ctx, total)
    info["exhaustive"] = True
    info["floors"] = {"cases": (len(total.nontrivial), 800), "shocks_from_data_runs": (total.counters.get("shocks_from_data_runs", 0), 60),
                      "deviation_vs_level_unit_root": (total.counters.get("deviation_vs_level_unit_root", 0), 300),
                      "smoother_alone_runs": (total.counters.get("smoother_alone_runs", 0), 3000),
                      "reparameterised_objects_checked": (total.counters.get("reparameterised_objects_checked", 0), 10),
                      "two_variant_filter_runs": (total.counters.get("two_variant_filter_runs", 0), 60)}


def replay(case):
    res = engine.Result()
    spec = linre.LinSpec.from_json(case["spec"])
    m = c03.build(spec)
    m.assign(**c03.std_settings(spec, case["N"], 0)[0][1])
    check_config(spec, m, case["N"], case["deviation"], res, engine.Ctx("quick", 0), only_mask=case["mask"])
    return ["%s %s %s" % (v["check"], engine.sigkey(v["signature"]), v["detail"]) for v in res.violations]
