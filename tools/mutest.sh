#!/bin/bash
# tools/mutest.sh <PROP> <name> <file-relative-to-src/irispie> <python-regex-or-literal old> <new>  [count]
# Applies one textual mutation in the scratch worktree /tmp/wt_main (synced to /repo HEAD), runs the quick check
# against it, prints the first violation lines, reverts.  Never touches /repo.
PROP=$1; NAME=$2; FILE=$3; OLD=$4; NEW=$5
WT=/tmp/wt_main
[ -d $WT ] || git -C /repo worktree add --detach $WT >/dev/null 2>&1
git -C $WT checkout -q -- . ; git -C $WT reset -q --hard "$(git -C /repo rev-parse HEAD)"
/venv/bin/python - "$WT/src/irispie/$FILE" "$OLD" "$NEW" <<'PY'
import sys
p, old, new = sys.argv[1:4]
s = open(p).read()
n = s.count(old)
if n != 1:
    print("MUTATION NOT APPLIED: %d occurrences of %r" % (n, old)); sys.exit(3)
open(p, "w").write(s.replace(old, new))
PY
[ $? -eq 0 ] || exit 3
OUT=$(cd /verif && VERIF_WORKERS=${VERIF_WORKERS:-8} VERIF_REPO_SRC=$WT/src ./check $PROP --tier ${TIER:-quick} 2>&1)
RC=$?
echo "== $PROP/$NAME rc=$RC  $(echo "$OUT" | grep -c '^VIOLATION') violation lines"
echo "$OUT" | grep -E "^\s+\[" | head -${SHOW:-3} | cut -c1-260
git -C $WT checkout -q -- .
