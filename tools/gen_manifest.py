#!/venv/bin/python
"""Regenerates MANIFEST.json from the table below (run after adding a check)."""
import json, os, sys
ROOT = os.path.dirname(os.path.dirname(os.path.abspath(__file__)))

BASELINE = ("cd /repo && env -u IRISPIE_VERIF /venv/bin/python -m pytest -ra -q -p no:cacheprovider --timeout=900 "
            "--continue-on-collection-errors")

def load_checks():
    """each props/cXX.py carries a literal dict MANIFEST_ENTRY = dict(level=, design=, technique=, text=, note=)"""
    import ast, glob
    out = {}
    for path in sorted(glob.glob(os.path.join(ROOT, "props", "c[0-9][0-9].py"))):
        tree = ast.parse(open(path).read())
        for node in tree.body:
            if isinstance(node, ast.Assign) and getattr(node.targets[0], "id", None) == "MANIFEST_ENTRY":
                v = node.value
                if isinstance(v, ast.Call):
                    d = {k.arg: ast.literal_eval(k.value) for k in v.keywords}
                else:
                    d = ast.literal_eval(v)
                out[os.path.basename(path)[:-3].upper()] = d
    return out

REGISTERED = set(open(os.path.join(ROOT, 'tools', 'registered.txt')).read().split())
CHECKS = {k: v for k, v in load_checks().items() if k in REGISTERED}   # only reviewed checks are claimed

PENDING = {}

def main():
    props = [json.loads(l) for l in open(os.path.join(ROOT, "properties.jsonl"))]
    checks, na = [], []
    for p in props:
        pid = p["id"]
        if pid in CHECKS:
            c = CHECKS[pid]
            checks.append({
                "property_id": pid,
                "quick_cmd": "./check %s --tier quick" % pid,
                "thorough_cmd": "./check %s --tier thorough" % pid,
                "evidence_file": "/verif/evidence/%s.json" % pid,
                "replay_cmd_template": "./check %s --replay {path}" % pid,
                "engine": "mc",
                "level_claimed": {"category": c["level"], "text": c["text"], "design_ref": c["design"]},
                "level_note": c["note"],
                "technique": c["technique"],
            })
        else:
            na.append({"property_id": pid, "reason": PENDING.get(pid, "check not built yet (build in progress; model-checking design in DESIGN.md section 4)")})
    man = {
        "version": 1,
        "setup_cmd": "./setup.sh",
        "hooks": {"guard": "IRISPIE_VERIF", "enable": "no source hooks are needed: irispie is installed editable in /venv, ./check exports IRISPIE_VERIF=1 and imports /repo's working tree directly",
                  "baseline_off_cmd": BASELINE, "source_commits": [], "add_only": True},
        "engines": [{"name": "mc", "path": "/verif/mc", "serves_properties": sorted(CHECKS),
                     "kind_free_text": "hand-written explicit-state explorer (level-synchronous BFS over operation histories on the real objects, reference model in lock-step) and bounded-exhaustive enumerator, 16 worker processes"}],
        "checks": checks,
        "not_applicable": na,
        "notes": "All checks run the real implementation from /repo's working tree; VERIF_SEED only sets PYTHONHASHSEED and rotates value tables, it never selects a subset of the explored space. Known findings: /verif/known_findings.json.",
    }
    with open(os.path.join(ROOT, "MANIFEST.json"), "w") as f:
        json.dump(man, f, indent=1)
        f.write("\n")
    sys.path.append(os.path.join(ROOT, ".vendor"))
    try:
        import jsonschema
        jsonschema.validate(man, json.load(open("/root/.vp/MANIFEST.schema.json")))
        print("MANIFEST valid: %d checks, %d not_applicable" % (len(checks), len(na)))
    except ImportError:
        print("written (not validated)")

if __name__ == "__main__":
    main()
