#!/venv/bin/python
"""Regenerates the generated tables of DESIGN.md (between BEGIN/END markers) from known_findings.json and seeded/*/meta.json."""
import glob, json, os, re
ROOT = os.path.dirname(os.path.dirname(os.path.abspath(__file__)))

def fixed_table():
    k = json.load(open(os.path.join(ROOT, "known_findings.json")))
    L = ["| Property | Commit | What failed |", "|---|---|---|"]
    for f in k["fixed"]:
        w = f["what"].split(" ", 3)[3].replace("|", "/")
        L.append("| %s | %s | %s |" % (f["property"], f["commit"], w))
    L.append("")
    if k["findings"]:
        L.append("Open findings (genuine defects recorded, not repaired; the check prints `KNOWN-FINDING` and exits 0):")
        L.append("")
        for f in k["findings"]:
            L.append("* **%s** - %s  (match: `%s`)" % (f["property"], f["what"], json.dumps(f["match"])))
        L.append("")
    L.append("%d defects repaired, each by one unguarded `fix:` commit; none is recorded as an open finding "
             "(`known_findings.json` has an empty `findings` list)." % len(k["fixed"]) if not k["findings"] else
             "%d defects repaired; %d open findings." % (len(k["fixed"]), len(k["findings"])))
    return "\n".join(L)

def seeded_table():
    L = ["| Seed | Property | Needs to manifest (from the author's notes) | Demo clean/patched | 254 tests pass | Detected by (quick) |", "|---|---|---|---|---|---|"]
    for d in sorted(glob.glob(os.path.join(ROOT, "seeded", "*"))):
        mp = os.path.join(d, "meta.json")
        if not os.path.exists(mp):
            continue
        m = json.load(open(mp))
        need = m.get("needs_to_manifest_short") or m.get("needs_to_manifest", "")
        L.append("| %s | %s | %s | %s/%s | %s | %s |" % (m["seed"], m["property"], need.replace("|", "/"), m["demo_exit_clean_tree"], m["demo_exit_patched_tree"],
                 "yes" if m["baseline_254_tests_pass_with_patch"] else "NO", ", ".join(m["detected_by_quick_checks"]) or "**missed**"))
    return "\n".join(L)

def main():
    p = os.path.join(ROOT, "DESIGN.md")
    s = open(p).read()
    for name, fn in (("FIXED", fixed_table), ("SEEDED", seeded_table)):
        b, e = "<!-- BEGIN:%s -->" % name, "<!-- END:%s -->" % name
        if b in s:
            s = s[: s.index(b) + len(b)] + "\n" + fn() + "\n" + s[s.index(e):]
    open(p, "w").write(s)

if __name__ == "__main__":
    main()
