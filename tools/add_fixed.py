#!/venv/bin/python
"""tools/add_fixed.py <PROP> <commit> <what failed>  — append a 'fixed' record to known_findings.json"""
import json, sys, os
ROOT = os.path.dirname(os.path.dirname(os.path.abspath(__file__)))
prop, sha, what = sys.argv[1], sys.argv[2], " ".join(sys.argv[3:])
p = os.path.join(ROOT, "known_findings.json")
k = json.load(open(p))
k["fixed"].append({"property": prop, "status": "fixed", "commit": sha, "what": "fixed: property=%s %s %s" % (prop, sha, what)})
json.dump(k, open(p, "w"), indent=1)
print("recorded", prop, sha)
