#!/venv/bin/python
"""tools/run_baseline.py [repo_dir]  — runs the pinned pytest suite of a repo checkout (default /repo) with the
verification guard OFF and reports whether all 254 baseline tests still pass.  Exit 0 iff they do."""
import json, os, subprocess, sys, tempfile, xml.etree.ElementTree as ET, glob
repo = os.path.abspath(sys.argv[1]) if len(sys.argv) > 1 else "/repo"
base = json.load(open("/root/.vp/BASELINE.json"))
want = set(base["stable_pass"])
fd, xml = tempfile.mkstemp(suffix=".xml"); os.close(fd)
env = dict(os.environ); env.pop("IRISPIE_VERIF", None)
env["PYTHONPATH"] = os.path.join(repo, "src")       # a scratch worktree shadows the editable install
env["PYTHONDONTWRITEBYTECODE"] = "1"
p = subprocess.run(["/venv/bin/python", "-m", "pytest", "-q", "-p", "no:cacheprovider", "--timeout=900",
                    "--continue-on-collection-errors", "-n", "8", "--junitxml=" + xml], cwd=repo, env=env,
                   stdout=subprocess.PIPE, stderr=subprocess.STDOUT, text=True)
passed = set()
for tc in ET.parse(xml).getroot().iter("testcase"):
    if not any(ch.tag in ("failure", "error", "skipped") for ch in tc):
        passed.add("%s::%s" % (tc.get("classname"), tc.get("name")))
os.unlink(xml)
for f in glob.glob(os.path.join(repo, "tmp*.spc")):
    os.unlink(f)
missing = sorted(want - passed)
print("baseline tests passing: %d/%d" % (len(want & passed), len(want)))
for m in missing[:20]:
    print("  NOT PASSING:", m)
if not missing:
    print("BASELINE OK")
sys.exit(0 if not missing else 1)
