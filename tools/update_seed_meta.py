#!/venv/bin/python
import json, os, glob
ROOT = os.path.dirname(os.path.dirname(os.path.abspath(__file__)))
needs = json.load(open(os.path.join(ROOT, "tools", "seed_needs.json")))
for d in sorted(glob.glob(os.path.join(ROOT, "seeded", "*"))):
    mp = os.path.join(d, "meta.json")
    if not os.path.exists(mp):
        continue
    m = json.load(open(mp))
    n = needs.get(m["seed"])
    if n:
        m["what_was_changed"] = n[0]
        m["needs_to_manifest"] = n[1]
        m["needs_to_manifest_short"] = n[0] + " — needs: " + n[1]
    json.dump(m, open(mp, "w"), indent=1)
print("ok")
