#!/bin/bash
# tools/eval_seed.sh <PROP> <srcdir containing patch.diff demo.py notes.md> <seedname> [extra props to run...]
# Confirms a seeded property-breaking change (baseline tests still pass, demo passes clean / fails patched), runs the
# quick check(s) against it in the scratch worktree /tmp/wt_main and files it under /verif/seeded/<seedname>/.
PROP=$1; SRC=$2; NAME=$3; shift 3; EXTRA="$@"
WT=${WT:-/tmp/wt_main}
TAG=$(basename $WT)
[ -d $WT ] || git -C /repo worktree add --detach $WT >/dev/null 2>&1
git -C $WT checkout -q -- . ; git -C $WT clean -fdq; git -C $WT reset -q --hard "$(git -C /repo rev-parse HEAD)"
echo "== demo on clean tree"; (cd /tmp && PYTHONPATH=/repo/src timeout 300 /venv/bin/python $SRC/demo.py >/tmp/demo_clean_$TAG.out 2>&1); RC_CLEAN=$?; tail -2 /tmp/demo_clean_$TAG.out
if ! git -C $WT apply $SRC/patch.diff; then echo "PATCH DOES NOT APPLY"; exit 3; fi
echo "== demo on patched tree"; (cd /tmp && PYTHONPATH=$WT/src timeout 300 /venv/bin/python $SRC/demo.py >/tmp/demo_patched_$TAG.out 2>&1); RC_PATCHED=$?; tail -3 /tmp/demo_patched_$TAG.out
echo "== baseline tests on patched tree"; /verif/tools/run_baseline.py $WT | tail -3; RC_BASE=${PIPESTATUS[0]}
DETECTED=""
for P in $PROP $EXTRA; do
  OUT=$(cd /verif && VERIF_WORKERS=${VERIF_WORKERS:-10} VERIF_REPO_SRC=$WT/src ./check $P --tier quick 2>&1); RC=$?
  NV=$(echo "$OUT" | grep -c '^VIOLATION')
  echo "== check $P rc=$RC violations=$NV"; echo "$OUT" | grep -E "^\s+\[" | head -3 | cut -c1-300
  [ $RC -eq 1 ] && [ $NV -gt 0 ] && DETECTED="$DETECTED $P"
done
git -C $WT checkout -q -- . ; git -C $WT clean -fdq
mkdir -p /verif/seeded/$NAME && cp $SRC/patch.diff $SRC/demo.py /verif/seeded/$NAME/ && cp $SRC/notes.md /verif/seeded/$NAME/notes.md 2>/dev/null
/venv/bin/python - "$PROP" "$NAME" "$RC_CLEAN" "$RC_PATCHED" "$RC_BASE" "$DETECTED" <<'PY'
import json, sys, subprocess
prop, name, rc_clean, rc_patched, rc_base, detected = sys.argv[1:7]
meta = {"property": prop, "seed": name,
        "repo_head_when_confirmed": subprocess.check_output(["git", "-C", "/repo", "rev-parse", "--short", "HEAD"], text=True).strip(),
        "demo_exit_clean_tree": int(rc_clean), "demo_exit_patched_tree": int(rc_patched),
        "baseline_254_tests_pass_with_patch": rc_base == "0",
        "detected_by_quick_checks": detected.split(),
        "what_i_ran": "tools/eval_seed.sh: git apply patch.diff in a scratch worktree; demo.py on clean and patched tree; tools/run_baseline.py on the patched tree; ./check <ID> --tier quick with VERIF_REPO_SRC pointing at the patched tree; worktree reverted",
        "needs_to_manifest": "see notes.md"}
json.dump(meta, open("/verif/seeded/%s/meta.json" % name, "w"), indent=1)
print("SEED %s: demo clean=%s patched=%s baseline_ok=%s detected_by=%s" % (name, rc_clean, rc_patched, rc_base == "0", detected or "NONE"))
PY
